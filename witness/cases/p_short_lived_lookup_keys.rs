//@ kind: pass
//@ what: look-ups only read their key: a key that dies right after the call is enough for get / get_kv / delete / seek, and what they return may outlive the key
#![allow(unused, dead_code)]
use jammdb::{Bucket, BucketName, Cursor, Data, Error, KVPair, OpenOptions, Tx, DB};
fn sink<T>(_t: &T) {}

fn main() -> Result<(), Error> {
    let db = DB::open("never-run.db")?;
    let tx = db.tx(true)?;
    let b = tx.get_or_create_bucket("b")?;
    let d = { let k = format!("k{}", 1); b.get(&k) };
    let kv = { let k = vec![1u8, 2, 3]; b.get_kv(&k) };
    let kv2 = { let k = String::from("k2"); b.get_kv(k.as_bytes()) };
    let mut c = b.cursor();
    let found = { let k = format!("k{}", 3); c.seek(k) };
    let here = c.current();
    let gone = { let k = format!("k{}", 4); b.delete(&k).is_ok() };
    sink(&(d, kv, kv2, found, here, gone));
    let path = String::from("other.db");
    let db2 = OpenOptions::new().pagesize(4096).open(&path)?;
    drop(path);
    let n = db2.tx(false)?.buckets().count();
    sink(&n);
    tx.commit()
}
