//@ kind: fail
//@ expect: E0277
//@ what: cursor moved into std::thread::spawn
#![allow(unused, dead_code)]
use jammdb::{Bucket, BucketName, Cursor, Data, Error, KVPair, OpenOptions, Tx, DB};
fn sink<T>(_t: &T) {}

fn main() {
    let db: &'static DB = Box::leak(Box::new(DB::open("never-run.db").unwrap()));
    let tx: &'static Tx<'static> = Box::leak(Box::new(db.tx(false).unwrap()));
    let b: &'static Bucket<'static, 'static> = Box::leak(Box::new(tx.get_bucket("b").unwrap()));
    let v = b.cursor();
    let h = std::thread::spawn(move || { sink(&v); }); //~ FAIL
    sink(&v); //~ TWIN
}
