//@ kind: fail
//@ expect: E0597
//@ what: a transaction kept past its database handle's scope
#![allow(unused, dead_code)]
use jammdb::{Bucket, BucketName, Cursor, Data, Error, KVPair, OpenOptions, Tx, DB};
fn sink<T>(_t: &T) {}

fn main() {
    let tx; //~ FAIL
    {
        let db = DB::open("never-run.db").unwrap();
        let t = db.tx(false).unwrap();
        tx = t; //~ FAIL
        sink(&t); //~ TWIN
    }
    sink(&tx); //~ FAIL
}
