//@ kind: fail
//@ expect: E0597
//@ what: a borrowed key / value / name that does not live as long as the transaction (delete_bucket_name)
#![allow(unused, dead_code)]
use jammdb::{Bucket, BucketName, Cursor, Data, Error, KVPair, OpenOptions, Tx, DB};
fn sink<T>(_t: &T) {}

fn main() {
    let db = DB::open("never-run.db").unwrap();
    let tx = db.tx(true).unwrap();
    let b = tx.get_bucket("b").unwrap();
    {
        let n = vec![3u8]; b.delete_bucket(&n[..]).unwrap(); //~ FAIL
        let n = vec![3u8]; b.delete_bucket(n).unwrap(); //~ TWIN
    }
    drop(b);
    tx.commit().unwrap();
}
