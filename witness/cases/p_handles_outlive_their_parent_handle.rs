//@ kind: pass
//@ what: everything obtained from a bucket handle is tied to the transaction, not to the handle: it may outlive a temporary or dropped parent handle
#![allow(unused, dead_code)]
use jammdb::{Bucket, BucketName, Cursor, Data, Error, KVPair, OpenOptions, Tx, DB};
fn sink<T>(_t: &T) {}

fn child<'b, 'tx>(tx: &'b Tx<'tx>) -> Result<Bucket<'b, 'tx>, Error> {
    let parent = tx.get_bucket("app")?;
    parent.get_bucket("settings")
}
fn first_value<'b, 'tx>(tx: &'b Tx<'tx>) -> Option<Data<'b, 'tx>> {
    let b = tx.get_bucket("b").ok()?;
    b.get("k")
}
fn main() -> Result<(), Error> {
    let db = DB::open("never-run.db")?;
    let tx = db.tx(true)?;
    let nested = tx.get_bucket("app")?.get_bucket("settings")?;
    let created = tx.get_or_create_bucket("app")?.get_or_create_bucket("more")?;
    let made = tx.create_bucket("fresh")?.create_bucket("inner")?;
    let kv = tx.get_bucket("b")?.get_kv("k");
    let data = tx.get_bucket("b")?.get("k");
    let cursor = tx.get_bucket("b")?.cursor();
    let pairs = tx.get_bucket("b")?.kv_pairs();
    let subs = tx.get_bucket("b")?.buckets();
    let old = tx.get_bucket("b")?.put("k", "v")?;
    let c = child(&tx)?;
    let d = first_value(&tx);
    sink(&(nested, created, made, kv, data, old, c, d));
    for x in cursor { sink(&x); }
    for x in pairs { sink(&x.kv()); }
    for (n, b) in subs { sink(&(n.name().len(), b.next_int())); }
    tx.commit()
}
