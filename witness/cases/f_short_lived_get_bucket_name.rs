//@ kind: fail
//@ expect: E0597
//@ what: a borrowed key / value / name that does not live as long as the transaction (get_bucket_name)
#![allow(unused, dead_code)]
use jammdb::{Bucket, BucketName, Cursor, Data, Error, KVPair, OpenOptions, Tx, DB};
fn sink<T>(_t: &T) {}

fn main() {
    let db = DB::open("never-run.db").unwrap();
    let tx = db.tx(true).unwrap();
    let b = tx.get_bucket("b").unwrap();
    {
        let n = String::from("n"); b.get_bucket(n.as_str()).unwrap(); //~ FAIL
        let n = String::from("n"); b.get_bucket(n).unwrap(); //~ TWIN
    }
    drop(b);
    tx.commit().unwrap();
}
