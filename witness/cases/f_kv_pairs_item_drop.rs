//@ kind: fail
//@ expect: E0505
//@ what: kv_pairs_item used after drop(tx)
#![allow(unused, dead_code)]
use jammdb::{Bucket, BucketName, Cursor, Data, Error, KVPair, OpenOptions, Tx, DB};
fn sink<T>(_t: &T) {}

fn main() {
    let db = DB::open("never-run.db").unwrap();
    let tx = db.tx(false).unwrap();
    let b = tx.get_bucket("b").unwrap();
    let v = b.kv_pairs().next().unwrap();
    sink(&v); //~ TWIN
    drop(v); //~ TWIN
    drop(tx);
    sink(&v); //~ FAIL
}
