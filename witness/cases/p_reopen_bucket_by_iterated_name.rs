//@ kind: pass
//@ what: a bucket is reopened by a name obtained from iteration (by reference and by value)
#![allow(unused, dead_code)]
use jammdb::{Bucket, BucketName, Cursor, Data, Error, KVPair, OpenOptions, Tx, DB};
fn sink<T>(_t: &T) {}

fn main() {
    let db = DB::open("never-run.db").unwrap();
    let tx = db.tx(true).unwrap();
    let b = tx.get_bucket("b").unwrap();
    for (name, _child) in b.buckets() {
        let again = b.get_bucket(&name).unwrap();
        sink(&again);
        let again2 = b.get_bucket(name).unwrap();
        sink(&again2);
    }
    for data in b.cursor() {
        if let Data::Bucket(name) = data {
            b.delete_bucket(&name).unwrap();
        }
    }
}
