//@ kind: fail
//@ expect: E0597
//@ what: a borrowed key / value / name that does not live as long as the transaction (put_key)
#![allow(unused, dead_code)]
use jammdb::{Bucket, BucketName, Cursor, Data, Error, KVPair, OpenOptions, Tx, DB};
fn sink<T>(_t: &T) {}

fn main() {
    let db = DB::open("never-run.db").unwrap();
    let tx = db.tx(true).unwrap();
    let b = tx.get_bucket("b").unwrap();
    {
        let k = vec![1u8, 2]; b.put(&k[..], "v").unwrap(); //~ FAIL
        let k = vec![1u8, 2]; b.put(k, "v").unwrap(); //~ TWIN
    }
    drop(b);
    tx.commit().unwrap();
}
