//@ kind: fail
//@ expect: E0505
//@ what: range used after tx.commit()
#![allow(unused, dead_code)]
use jammdb::{Bucket, BucketName, Cursor, Data, Error, KVPair, OpenOptions, Tx, DB};
fn sink<T>(_t: &T) {}

fn main() {
    let db = DB::open("never-run.db").unwrap();
    let tx = db.tx(true).unwrap();
    let b = tx.get_bucket("b").unwrap();
    let v = b.range::<std::ops::RangeFull>(..);
    sink(&v); //~ TWIN
    drop(v); //~ TWIN
    tx.commit().unwrap();
    sink(&v); //~ FAIL
}
