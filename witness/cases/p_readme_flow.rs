//@ kind: pass
//@ what: the README flow (create, put, commit, read back)
#![allow(unused, dead_code)]
use jammdb::{Bucket, BucketName, Cursor, Data, Error, KVPair, OpenOptions, Tx, DB};
fn sink<T>(_t: &T) {}

fn main() -> Result<(), Error> {
    let db = DB::open("never-run.db")?;
    let tx = db.tx(true)?;
    let names_bucket = tx.create_bucket("names")?;
    names_bucket.put("Kanan", "Jarrus")?;
    names_bucket.put("Ezra", "Bridger")?;
    drop(names_bucket);
    tx.commit()?;
    let tx = db.tx(false)?;
    let names_bucket = tx.get_bucket("names")?;
    if let Some(data) = names_bucket.get("Kanan") {
        assert_eq!(data.kv().value(), b"Jarrus");
    }
    Ok(())
}
