//@ kind: fail
//@ expect: E0597
//@ what: bucket_name kept past the end of the transaction's scope
#![allow(unused, dead_code)]
use jammdb::{Bucket, BucketName, Cursor, Data, Error, KVPair, OpenOptions, Tx, DB};
fn sink<T>(_t: &T) {}

fn main() {
    let db = DB::open("never-run.db").unwrap();
    let kept; //~ FAIL
    {
        let tx = db.tx(true).unwrap();
        let b = tx.get_bucket("b").unwrap();
        let v = b.buckets().next().unwrap().0;
        kept = v; //~ FAIL
        sink(&v); //~ TWIN
    }
    sink(&kept); //~ FAIL
}
