//@ kind: fail
//@ expect: E0277
//@ what: KVPair<'static, 'static> must not be Send
#![allow(unused, dead_code)]
use jammdb::{Bucket, BucketName, Cursor, Data, Error, KVPair, OpenOptions, Tx, DB};
fn sink<T>(_t: &T) {}

fn need<T: Send>() {}
fn main() {
    need::<KVPair<'static, 'static>>(); //~ FAIL
    need::<DB>(); //~ TWIN
}
