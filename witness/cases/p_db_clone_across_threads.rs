//@ kind: pass
//@ what: a cloned DB handle is shared between threads, each running its own transaction
#![allow(unused, dead_code)]
use jammdb::{Bucket, BucketName, Cursor, Data, Error, KVPair, OpenOptions, Tx, DB};
fn sink<T>(_t: &T) {}

fn main() {
    let db = DB::open("never-run.db").unwrap();
    let mut hs = Vec::new();
    for i in 0..4u64 {
        let db = db.clone();
        hs.push(std::thread::spawn(move || {
            let tx = db.tx(i == 0).unwrap();
            let b = tx.get_bucket("b").unwrap();
            let _ = b.get("k").map(|d| d.kv().value().to_vec());
        }));
    }
    for h in hs { h.join().unwrap(); }
    fn need<T: Send + Sync + Clone>() {}
    need::<DB>();
}
