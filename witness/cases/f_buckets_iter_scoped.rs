//@ kind: fail
//@ expect: E0277
//@ what: &buckets_iter shared with a scoped thread
#![allow(unused, dead_code)]
use jammdb::{Bucket, BucketName, Cursor, Data, Error, KVPair, OpenOptions, Tx, DB};
fn sink<T>(_t: &T) {}

fn main() {
    let db = DB::open("never-run.db").unwrap();
    let tx = db.tx(false).unwrap();
    let b = tx.get_bucket("b").unwrap();
    let v = b.buckets();
    std::thread::scope(|s| {
        s.spawn(|| { sink(&v); }); //~ FAIL
        sink(&v); //~ TWIN
    });
}
