//@ kind: pass
//@ what: several transactions of one handle coexist; data of one may be used while another is open
#![allow(unused, dead_code)]
use jammdb::{Bucket, BucketName, Cursor, Data, Error, KVPair, OpenOptions, Tx, DB};
fn sink<T>(_t: &T) {}

fn main() -> Result<(), Error> {
    let db = DB::open("never-run.db")?;
    let r1 = db.tx(false)?;
    let r2 = db.tx(false)?;
    let a = r1.get_bucket("b")?;
    let b = r2.get_bucket("b")?;
    let x = a.get("k");
    let y = b.get("k");
    sink(&(x, y));
    drop(a);
    drop(r1);
    let z = b.get("k2");
    sink(&z);
    Ok(())
}
