//@ kind: fail
//@ expect: E0505
//@ what: database handle dropped while a transaction is alive
#![allow(unused, dead_code)]
use jammdb::{Bucket, BucketName, Cursor, Data, Error, KVPair, OpenOptions, Tx, DB};
fn sink<T>(_t: &T) {}

fn main() {
    let db = DB::open("never-run.db").unwrap();
    let tx = db.tx(false).unwrap();
    sink(&tx); //~ TWIN
    drop(tx); //~ TWIN
    drop(db);
    sink(&tx); //~ FAIL
}
