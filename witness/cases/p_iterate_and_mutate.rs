//@ kind: pass
//@ what: ranges, cursors and nested buckets used together inside one write transaction
#![allow(unused, dead_code)]
use jammdb::{Bucket, BucketName, Cursor, Data, Error, KVPair, OpenOptions, Tx, DB};
fn sink<T>(_t: &T) {}

fn main() {
    let db = OpenOptions::new().pagesize(4096).num_pages(32).strict_mode(true).open("never-run.db").unwrap();
    let tx = db.tx(true).unwrap();
    let b = tx.get_or_create_bucket("b").unwrap();
    b.put(1u64.to_be_bytes(), vec![1u8; 10]).unwrap();
    b.put(String::from("k"), "static str").unwrap();
    let lo: &[u8] = b"a";
    let hi: &[u8] = b"z";
    for d in b.range(lo..hi) { sink(&d.key().len()); }
    for kv in b.kv_pairs() { sink(&kv.kv()); }
    let mut c = b.cursor();
    c.seek("k");
    let n = b.get_or_create_bucket("nested").unwrap();
    n.put("x", "y").unwrap();
    sink(&b.next_int());
    drop((b, n, c));
    tx.commit().unwrap();
}
