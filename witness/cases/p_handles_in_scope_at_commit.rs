//@ kind: pass
//@ what: handles that are not used again may still be in scope when the transaction is committed or dropped (no handle type has drop glue that touches the transaction)
#![allow(unused, dead_code)]
use jammdb::{Bucket, BucketName, Cursor, Data, Error, KVPair, OpenOptions, Tx, DB};
fn sink<T>(_t: &T) {}

fn main() -> Result<(), Error> {
    let db = DB::open("never-run.db")?;
    let tx = db.tx(true)?;
    let b = tx.get_or_create_bucket("b")?;
    let mut c = b.cursor();
    c.seek("k");
    let lo: &[u8] = b"a";
    let r = b.range(lo..);
    let kv = b.get_kv("k");
    b.delete("k")?;
    tx.commit()?;
    let tx2 = db.tx(false)?;
    let b2 = tx2.get_bucket("b")?;
    let c2 = b2.cursor();
    let d2 = b2.get("k");
    drop(tx2);
    Ok(())
}
