//@ kind: fail
//@ expect: E0277
//@ what: a transaction moved into std::thread::spawn
#![allow(unused, dead_code)]
use jammdb::{Bucket, BucketName, Cursor, Data, Error, KVPair, OpenOptions, Tx, DB};
fn sink<T>(_t: &T) {}

fn main() {
    let db: &'static DB = Box::leak(Box::new(DB::open("never-run.db").unwrap()));
    let tx = db.tx(true).unwrap();
    let h = std::thread::spawn(move || { sink(&tx); }); //~ FAIL
    sink(&tx); //~ TWIN
}
