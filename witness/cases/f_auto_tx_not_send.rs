//@ kind: fail
//@ expect: E0277
//@ what: Tx<'static> must not be Send
#![allow(unused, dead_code)]
use jammdb::{Bucket, BucketName, Cursor, Data, Error, KVPair, OpenOptions, Tx, DB};
fn sink<T>(_t: &T) {}

fn need<T: Send>() {}
fn main() {
    need::<Tx<'static>>(); //~ FAIL
    need::<DB>(); //~ TWIN
}
