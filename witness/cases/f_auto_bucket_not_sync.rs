//@ kind: fail
//@ expect: E0277
//@ what: Bucket<'static, 'static> must not be Sync
#![allow(unused, dead_code)]
use jammdb::{Bucket, BucketName, Cursor, Data, Error, KVPair, OpenOptions, Tx, DB};
fn sink<T>(_t: &T) {}

fn need<T: Sync>() {}
fn main() {
    need::<Bucket<'static, 'static>>(); //~ FAIL
    need::<DB>(); //~ TWIN
}
