//@ kind: pass
//@ what: owned copies (to_vec) may leave the transaction
#![allow(unused, dead_code)]
use jammdb::{Bucket, BucketName, Cursor, Data, Error, KVPair, OpenOptions, Tx, DB};
fn sink<T>(_t: &T) {}

fn main() {
    let db = DB::open("never-run.db").unwrap();
    let (k, v, n): (Vec<u8>, Vec<u8>, Vec<u8>);
    {
        let tx = db.tx(false).unwrap();
        let b = tx.get_bucket("b").unwrap();
        let kv = b.get_kv("k").unwrap();
        k = kv.key().to_vec();
        v = kv.value().to_vec();
        n = b.buckets().next().unwrap().0.name().to_vec();
    }
    sink(&(k, v, n));
}
