//@ kind: fail
//@ expect: E0382
//@ what: a transaction used after commit consumed it
#![allow(unused, dead_code)]
use jammdb::{Bucket, BucketName, Cursor, Data, Error, KVPair, OpenOptions, Tx, DB};
fn sink<T>(_t: &T) {}

fn main() {
    let db = DB::open("never-run.db").unwrap();
    let tx = db.tx(true).unwrap();
    sink(&tx); //~ TWIN
    tx.commit().unwrap();
    sink(&tx); //~ FAIL
}
