//@ kind: fail
//@ expect: E0599
//@ what: a transaction cannot be cloned
#![allow(unused, dead_code)]
use jammdb::{Bucket, BucketName, Cursor, Data, Error, KVPair, OpenOptions, Tx, DB};
fn sink<T>(_t: &T) {}

fn main() {
    let db = DB::open("never-run.db").unwrap();
    let tx = db.tx(true).unwrap();
    let tx2 = tx.clone(); //~ FAIL
    let tx2 = &tx; //~ TWIN
    sink(&tx2);
}
