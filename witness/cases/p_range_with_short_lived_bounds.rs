//@ kind: pass
//@ what: range bounds are only read while the Range is alive: keys built inside the transaction (formatted prefixes, helper-local vectors, keys read from another bucket) are enough
#![allow(unused, dead_code)]
use jammdb::{Bucket, BucketName, Cursor, Data, Error, KVPair, OpenOptions, Tx, DB};
fn sink<T>(_t: &T) {}

fn scan_prefix(b: &Bucket, prefix: &str) -> usize {
    let lo = prefix.as_bytes().to_vec();
    let mut hi = lo.clone();
    *hi.last_mut().unwrap() += 1;
    b.range(lo.as_slice()..hi.as_slice()).count()
}
fn main() -> Result<(), Error> {
    let db = DB::open("never-run.db")?;
    let tx = db.tx(false)?;
    let users = tx.get_bucket("users")?;
    let n1 = {
        let team = String::from("red");
        let lo = format!("{}:", team);
        let hi = format!("{};", team);
        users.range(lo.as_bytes()..hi.as_bytes()).count()
    };
    let n2 = scan_prefix(&users, "blue:");
    let cfg = tx.get_bucket("config")?;
    let first = cfg.get_kv("first").unwrap();
    let n3 = users.range(first.value()..).count();
    sink(&(n1, n2, n3));
    Ok(())
}
