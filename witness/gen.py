#!/usr/bin/env python3
"""Generates the hand-designed witness corpus into witness/cases/*.rs (committed; regenerate with `python3 witness/gen.py`).

File format: a client program using jammdb as an external crate would.  Header lines:
    //@ kind: fail | pass
    //@ expect: E0597[,E0505]      (fail only)
    //@ what: <one line>
Lines ending in `//~ FAIL` exist only in the failing variant, lines ending in `//~ TWIN` only in the compiling twin:
the twin differs from the witness by exactly those lines, so a witness that fails for an unrelated reason (typo, renamed
API) is detected because its twin then fails too.  Nothing is ever executed: the programs are only type-checked."""
import os
HERE = os.path.dirname(os.path.abspath(__file__))
OUT = os.path.join(HERE, 'cases')

PRELUDE = """#![allow(unused, dead_code)]
use jammdb::{Bucket, BucketName, Cursor, Data, Error, KVPair, OpenOptions, Tx, DB};
fn sink<T>(_t: &T) {}
"""

# carrier name -> (statements that produce `v` inside the transaction scope, given `tx` and bucket `b`)
CARRIERS = {
    'bucket': "let v = tx.get_bucket(\"b\").unwrap();",
    'nested_bucket': "let v = b.get_bucket(\"n\").unwrap();",
    'created_bucket': "let v = tx.get_or_create_bucket(\"c\").unwrap();",
    'data': "let v = b.get(\"k\").unwrap();",
    'kvpair': "let v = b.get_kv(\"k\").unwrap();",
    'put_result': "let v = b.put(\"k\", \"v\").unwrap();",
    'delete_result': "let v = b.delete(\"k\").unwrap();",
    'cursor': "let v = b.cursor();",
    'into_iter': "let v = tx.get_bucket(\"b\").unwrap().into_iter();",
    'range': "let v = b.range::<std::ops::RangeFull>(..);",
    'buckets_iter': "let v = b.buckets();",
    'tx_buckets_iter': "let v = tx.buckets();",
    'kv_pairs_iter': "let v = b.kv_pairs();",
    'bucket_name': "let v = b.buckets().next().unwrap().0;",
    'cursor_item': "let v = b.cursor().next().unwrap();",
    'range_item': "let v = b.range::<std::ops::RangeFull>(..).next().unwrap();",
    'kv_pairs_item': "let v = b.kv_pairs().next().unwrap();",
    'buckets_item_bucket': "let v = b.buckets().next().unwrap().1;",
}


def scope_end(name, prod):
    return f"""//@ kind: fail
//@ expect: E0597
//@ what: {name} kept past the end of the transaction's scope
{PRELUDE}
fn main() {{
    let db = DB::open("never-run.db").unwrap();
    let kept; //~ FAIL
    {{
        let tx = db.tx(true).unwrap();
        let b = tx.get_bucket("b").unwrap();
        {prod}
        kept = v; //~ FAIL
        sink(&v); //~ TWIN
    }}
    sink(&kept); //~ FAIL
}}
"""


def past_commit(name, prod):
    return f"""//@ kind: fail
//@ expect: E0505
//@ what: {name} used after tx.commit()
{PRELUDE}
fn main() {{
    let db = DB::open("never-run.db").unwrap();
    let tx = db.tx(true).unwrap();
    let b = tx.get_bucket("b").unwrap();
    {prod}
    sink(&v); //~ TWIN
    drop(v); //~ TWIN
    tx.commit().unwrap();
    sink(&v); //~ FAIL
}}
"""


def past_drop(name, prod):
    return f"""//@ kind: fail
//@ expect: E0505
//@ what: {name} used after drop(tx)
{PRELUDE}
fn main() {{
    let db = DB::open("never-run.db").unwrap();
    let tx = db.tx(false).unwrap();
    let b = tx.get_bucket("b").unwrap();
    {prod}
    sink(&v); //~ TWIN
    drop(v); //~ TWIN
    drop(tx);
    sink(&v); //~ FAIL
}}
"""


def send_spawn(name, prod):
    return f"""//@ kind: fail
//@ expect: E0277
//@ what: {name} moved into std::thread::spawn
{PRELUDE}
fn main() {{
    let db: &'static DB = Box::leak(Box::new(DB::open("never-run.db").unwrap()));
    let tx: &'static Tx<'static> = Box::leak(Box::new(db.tx(false).unwrap()));
    let b: &'static Bucket<'static, 'static> = Box::leak(Box::new(tx.get_bucket("b").unwrap()));
    {prod}
    let h = std::thread::spawn(move || {{ sink(&v); }}); //~ FAIL
    sink(&v); //~ TWIN
}}
"""


def share_scoped(name, prod):
    return f"""//@ kind: fail
//@ expect: E0277
//@ what: &{name} shared with a scoped thread
{PRELUDE}
fn main() {{
    let db = DB::open("never-run.db").unwrap();
    let tx = db.tx(false).unwrap();
    let b = tx.get_bucket("b").unwrap();
    {prod}
    std::thread::scope(|s| {{
        s.spawn(|| {{ sink(&v); }}); //~ FAIL
        sink(&v); //~ TWIN
    }});
}}
"""


EXTRA = {}

EXTRA['tx_past_db_scope'] = f"""//@ kind: fail
//@ expect: E0597
//@ what: a transaction kept past its database handle's scope
{PRELUDE}
fn main() {{
    let tx; //~ FAIL
    {{
        let db = DB::open("never-run.db").unwrap();
        let t = db.tx(false).unwrap();
        tx = t; //~ FAIL
        sink(&t); //~ TWIN
    }}
    sink(&tx); //~ FAIL
}}
"""

EXTRA['db_dropped_while_tx_alive'] = f"""//@ kind: fail
//@ expect: E0505
//@ what: database handle dropped while a transaction is alive
{PRELUDE}
fn main() {{
    let db = DB::open("never-run.db").unwrap();
    let tx = db.tx(false).unwrap();
    sink(&tx); //~ TWIN
    drop(tx); //~ TWIN
    drop(db);
    sink(&tx); //~ FAIL
}}
"""

EXTRA['tx_moved_to_thread'] = f"""//@ kind: fail
//@ expect: E0277
//@ what: a transaction moved into std::thread::spawn
{PRELUDE}
fn main() {{
    let db: &'static DB = Box::leak(Box::new(DB::open("never-run.db").unwrap()));
    let tx = db.tx(true).unwrap();
    let h = std::thread::spawn(move || {{ sink(&tx); }}); //~ FAIL
    sink(&tx); //~ TWIN
}}
"""

EXTRA['tx_shared_scoped'] = f"""//@ kind: fail
//@ expect: E0277
//@ what: &Tx shared with a scoped thread
{PRELUDE}
fn main() {{
    let db = DB::open("never-run.db").unwrap();
    let tx = db.tx(false).unwrap();
    std::thread::scope(|s| {{
        s.spawn(|| {{ sink(&tx); }}); //~ FAIL
        sink(&tx); //~ TWIN
    }});
}}
"""

EXTRA['commit_by_value'] = f"""//@ kind: fail
//@ expect: E0382
//@ what: a transaction used after commit consumed it
{PRELUDE}
fn main() {{
    let db = DB::open("never-run.db").unwrap();
    let tx = db.tx(true).unwrap();
    sink(&tx); //~ TWIN
    tx.commit().unwrap();
    sink(&tx); //~ FAIL
}}
"""

EXTRA['tx_not_clone'] = f"""//@ kind: fail
//@ expect: E0599
//@ what: a transaction cannot be cloned
{PRELUDE}
fn main() {{
    let db = DB::open("never-run.db").unwrap();
    let tx = db.tx(true).unwrap();
    let tx2 = tx.clone(); //~ FAIL
    let tx2 = &tx; //~ TWIN
    sink(&tx2);
}}
"""

for what, body_fail, body_twin in (
        ('put_key', 'let k = vec![1u8, 2]; b.put(&k[..], "v").unwrap();', 'let k = vec![1u8, 2]; b.put(k, "v").unwrap();'),
        ('put_value', 'let val = String::from("v"); b.put("k", val.as_str()).unwrap();', 'let val = String::from("v"); b.put("k", val).unwrap();'),
        ('create_bucket_name', 'let n = String::from("n"); b.create_bucket(n.as_str()).unwrap();', 'let n = String::from("n"); b.create_bucket(n).unwrap();'),
        ('get_bucket_name', 'let n = String::from("n"); b.get_bucket(n.as_str()).unwrap();', 'let n = String::from("n"); b.get_bucket(n).unwrap();'),
        ('delete_bucket_name', 'let n = vec![3u8]; b.delete_bucket(&n[..]).unwrap();', 'let n = vec![3u8]; b.delete_bucket(n).unwrap();'),
        ('tx_create_bucket_name', 'let n = String::from("n"); tx.create_bucket(n.as_str()).unwrap();', 'let n = String::from("n"); tx.create_bucket(n).unwrap();'),
):
    EXTRA['short_lived_' + what] = f"""//@ kind: fail
//@ expect: E0597
//@ what: a borrowed key / value / name that does not live as long as the transaction ({what})
{PRELUDE}
fn main() {{
    let db = DB::open("never-run.db").unwrap();
    let tx = db.tx(true).unwrap();
    let b = tx.get_bucket("b").unwrap();
    {{
        {body_fail} //~ FAIL
        {body_twin} //~ TWIN
    }}
    drop(b);
    tx.commit().unwrap();
}}
"""

# auto traits, asserted directly
for ty in ("Tx<'static>", "Bucket<'static, 'static>", "Cursor<'static, 'static>", "KVPair<'static, 'static>", "Data<'static, 'static>",
           "BucketName<'static, 'static>"):
    nm = ty.split('<')[0].split('::')[-1].lower()
    for tr in ('Send', 'Sync'):
        EXTRA[f'auto_{nm}_not_{tr.lower()}'] = f"""//@ kind: fail
//@ expect: E0277
//@ what: {ty} must not be {tr}
{PRELUDE}
fn need<T: {tr}>() {{}}
fn main() {{
    need::<{ty}>(); //~ FAIL
    need::<DB>(); //~ TWIN
}}
"""

PASS = {}
PASS['readme_flow'] = f"""//@ kind: pass
//@ what: the README flow (create, put, commit, read back)
{PRELUDE}
fn main() -> Result<(), Error> {{
    let db = DB::open("never-run.db")?;
    let tx = db.tx(true)?;
    let names_bucket = tx.create_bucket("names")?;
    names_bucket.put("Kanan", "Jarrus")?;
    names_bucket.put("Ezra", "Bridger")?;
    drop(names_bucket);
    tx.commit()?;
    let tx = db.tx(false)?;
    let names_bucket = tx.get_bucket("names")?;
    if let Some(data) = names_bucket.get("Kanan") {{
        assert_eq!(data.kv().value(), b"Jarrus");
    }}
    Ok(())
}}
"""
PASS['owned_copies_leave_scope'] = f"""//@ kind: pass
//@ what: owned copies (to_vec) may leave the transaction
{PRELUDE}
fn main() {{
    let db = DB::open("never-run.db").unwrap();
    let (k, v, n): (Vec<u8>, Vec<u8>, Vec<u8>);
    {{
        let tx = db.tx(false).unwrap();
        let b = tx.get_bucket("b").unwrap();
        let kv = b.get_kv("k").unwrap();
        k = kv.key().to_vec();
        v = kv.value().to_vec();
        n = b.buckets().next().unwrap().0.name().to_vec();
    }}
    sink(&(k, v, n));
}}
"""
PASS['db_clone_across_threads'] = f"""//@ kind: pass
//@ what: a cloned DB handle is shared between threads, each running its own transaction
{PRELUDE}
fn main() {{
    let db = DB::open("never-run.db").unwrap();
    let mut hs = Vec::new();
    for i in 0..4u64 {{
        let db = db.clone();
        hs.push(std::thread::spawn(move || {{
            let tx = db.tx(i == 0).unwrap();
            let b = tx.get_bucket("b").unwrap();
            let _ = b.get("k").map(|d| d.kv().value().to_vec());
        }}));
    }}
    for h in hs {{ h.join().unwrap(); }}
    fn need<T: Send + Sync + Clone>() {{}}
    need::<DB>();
}}
"""
PASS['reopen_bucket_by_iterated_name'] = f"""//@ kind: pass
//@ what: a bucket is reopened by a name obtained from iteration (by reference and by value)
{PRELUDE}
fn main() {{
    let db = DB::open("never-run.db").unwrap();
    let tx = db.tx(true).unwrap();
    let b = tx.get_bucket("b").unwrap();
    for (name, _child) in b.buckets() {{
        let again = b.get_bucket(&name).unwrap();
        sink(&again);
        let again2 = b.get_bucket(name).unwrap();
        sink(&again2);
    }}
    for data in b.cursor() {{
        if let Data::Bucket(name) = data {{
            b.delete_bucket(&name).unwrap();
        }}
    }}
}}
"""
PASS['iterate_and_mutate'] = f"""//@ kind: pass
//@ what: ranges, cursors and nested buckets used together inside one write transaction
{PRELUDE}
fn main() {{
    let db = OpenOptions::new().pagesize(4096).num_pages(32).strict_mode(true).open("never-run.db").unwrap();
    let tx = db.tx(true).unwrap();
    let b = tx.get_or_create_bucket("b").unwrap();
    b.put(1u64.to_be_bytes(), vec![1u8; 10]).unwrap();
    b.put(String::from("k"), "static str").unwrap();
    let lo: &[u8] = b"a";
    let hi: &[u8] = b"z";
    for d in b.range(lo..hi) {{ sink(&d.key().len()); }}
    for kv in b.kv_pairs() {{ sink(&kv.kv()); }}
    let mut c = b.cursor();
    c.seek("k");
    let n = b.get_or_create_bucket("nested").unwrap();
    n.put("x", "y").unwrap();
    sink(&b.next_int());
    drop((b, n, c));
    tx.commit().unwrap();
}}
"""

PASS['handles_outlive_their_parent_handle'] = f"""//@ kind: pass
//@ what: everything obtained from a bucket handle is tied to the transaction, not to the handle: it may outlive a temporary or dropped parent handle
{PRELUDE}
fn child<'b, 'tx>(tx: &'b Tx<'tx>) -> Result<Bucket<'b, 'tx>, Error> {{
    let parent = tx.get_bucket("app")?;
    parent.get_bucket("settings")
}}
fn first_value<'b, 'tx>(tx: &'b Tx<'tx>) -> Option<Data<'b, 'tx>> {{
    let b = tx.get_bucket("b").ok()?;
    b.get("k")
}}
fn main() -> Result<(), Error> {{
    let db = DB::open("never-run.db")?;
    let tx = db.tx(true)?;
    let nested = tx.get_bucket("app")?.get_bucket("settings")?;
    let created = tx.get_or_create_bucket("app")?.get_or_create_bucket("more")?;
    let made = tx.create_bucket("fresh")?.create_bucket("inner")?;
    let kv = tx.get_bucket("b")?.get_kv("k");
    let data = tx.get_bucket("b")?.get("k");
    let cursor = tx.get_bucket("b")?.cursor();
    let pairs = tx.get_bucket("b")?.kv_pairs();
    let subs = tx.get_bucket("b")?.buckets();
    let old = tx.get_bucket("b")?.put("k", "v")?;
    let c = child(&tx)?;
    let d = first_value(&tx);
    sink(&(nested, created, made, kv, data, old, c, d));
    for x in cursor {{ sink(&x); }}
    for x in pairs {{ sink(&x.kv()); }}
    for (n, b) in subs {{ sink(&(n.name().len(), b.next_int())); }}
    tx.commit()
}}
"""
PASS['read_only_transactions_in_parallel'] = f"""//@ kind: pass
//@ what: several transactions of one handle coexist; data of one may be used while another is open
{PRELUDE}
fn main() -> Result<(), Error> {{
    let db = DB::open("never-run.db")?;
    let r1 = db.tx(false)?;
    let r2 = db.tx(false)?;
    let a = r1.get_bucket("b")?;
    let b = r2.get_bucket("b")?;
    let x = a.get("k");
    let y = b.get("k");
    sink(&(x, y));
    drop(a);
    drop(r1);
    let z = b.get("k2");
    sink(&z);
    Ok(())
}}
"""

PASS['handles_in_scope_at_commit'] = f"""//@ kind: pass
//@ what: handles that are not used again may still be in scope when the transaction is committed or dropped (no handle type has drop glue that touches the transaction)
{PRELUDE}
fn main() -> Result<(), Error> {{
    let db = DB::open("never-run.db")?;
    let tx = db.tx(true)?;
    let b = tx.get_or_create_bucket("b")?;
    let mut c = b.cursor();
    c.seek("k");
    let lo: &[u8] = b"a";
    let r = b.range(lo..);
    let kv = b.get_kv("k");
    b.delete("k")?;
    tx.commit()?;
    let tx2 = db.tx(false)?;
    let b2 = tx2.get_bucket("b")?;
    let c2 = b2.cursor();
    let d2 = b2.get("k");
    drop(tx2);
    Ok(())
}}
"""


PASS['range_with_short_lived_bounds'] = f"""//@ kind: pass
//@ what: range bounds are only read while the Range is alive: keys built inside the transaction (formatted prefixes, helper-local vectors, keys read from another bucket) are enough
{PRELUDE}
fn scan_prefix(b: &Bucket, prefix: &str) -> usize {{
    let lo = prefix.as_bytes().to_vec();
    let mut hi = lo.clone();
    *hi.last_mut().unwrap() += 1;
    b.range(lo.as_slice()..hi.as_slice()).count()
}}
fn main() -> Result<(), Error> {{
    let db = DB::open("never-run.db")?;
    let tx = db.tx(false)?;
    let users = tx.get_bucket("users")?;
    let n1 = {{
        let team = String::from("red");
        let lo = format!("{{}}:", team);
        let hi = format!("{{}};", team);
        users.range(lo.as_bytes()..hi.as_bytes()).count()
    }};
    let n2 = scan_prefix(&users, "blue:");
    let cfg = tx.get_bucket("config")?;
    let first = cfg.get_kv("first").unwrap();
    let n3 = users.range(first.value()..).count();
    sink(&(n1, n2, n3));
    Ok(())
}}
"""

PASS['errors_and_results_cross_threads'] = f"""//@ kind: pass
//@ what: the crate's error type is Send + Sync + 'static: a worker thread that owns a cloned handle may return Result<_, Error>, and the error converts into Box<dyn Error + Send + Sync>
{PRELUDE}
fn assert_send_sync<T: Send + Sync + 'static>() {{}}
fn worker(db: DB) -> Result<u64, Error> {{
    let tx = db.tx(true)?;
    let b = tx.get_or_create_bucket("b")?;
    let n = b.next_int();
    tx.commit()?;
    Ok(n)
}}
fn boxed(db: &DB) -> Result<(), Box<dyn std::error::Error + Send + Sync>> {{
    let tx = db.tx(false)?;
    tx.get_bucket("b")?;
    Ok(())
}}
fn main() -> Result<(), Error> {{
    assert_send_sync::<Error>();
    let db = DB::open("never-run.db")?;
    let h = {{ let db = db.clone(); std::thread::spawn(move || worker(db)) }};
    let r: Result<u64, Error> = h.join().unwrap();
    sink(&r.is_ok());
    let _ = boxed(&db);
    Ok(())
}}
"""


PASS['short_lived_lookup_keys'] = f"""//@ kind: pass
//@ what: look-ups only read their key: a key that dies right after the call is enough for get / get_kv / delete / seek, and what they return may outlive the key
{PRELUDE}
fn main() -> Result<(), Error> {{
    let db = DB::open("never-run.db")?;
    let tx = db.tx(true)?;
    let b = tx.get_or_create_bucket("b")?;
    let d = {{ let k = format!("k{{}}", 1); b.get(&k) }};
    let kv = {{ let k = vec![1u8, 2, 3]; b.get_kv(&k) }};
    let kv2 = {{ let k = String::from("k2"); b.get_kv(k.as_bytes()) }};
    let mut c = b.cursor();
    let found = {{ let k = format!("k{{}}", 3); c.seek(k) }};
    let here = c.current();
    let gone = {{ let k = format!("k{{}}", 4); b.delete(&k).is_ok() }};
    sink(&(d, kv, kv2, found, here, gone));
    let path = String::from("other.db");
    let db2 = OpenOptions::new().pagesize(4096).open(&path)?;
    drop(path);
    let n = db2.tx(false)?.buckets().count();
    sink(&n);
    tx.commit()
}}
"""


def main():
    os.makedirs(OUT, exist_ok=True)
    for f in os.listdir(OUT):
        if f.endswith('.rs'):
            os.remove(os.path.join(OUT, f))
    n = 0
    for name, prod in CARRIERS.items():
        routes = [('scope', scope_end), ('commit', past_commit), ('drop', past_drop)]
        # put/delete/create need a writable transaction; `past_drop` uses a read-only one
        if name in ('put_result', 'delete_result', 'created_bucket'):
            routes = [('scope', scope_end), ('commit', past_commit)]
        if name in ('bucket', 'data', 'kvpair', 'cursor', 'bucket_name', 'range', 'buckets_iter', 'kv_pairs_iter'):
            routes += [('spawn', send_spawn), ('scoped', share_scoped)]
        for rname, fn in routes:
            open(os.path.join(OUT, 'f_%s_%s.rs' % (name, rname)), 'w').write(fn(name, prod))
            n += 1
    for name, src in EXTRA.items():
        open(os.path.join(OUT, 'f_%s.rs' % name), 'w').write(src)
        n += 1
    for name, src in PASS.items():
        open(os.path.join(OUT, 'p_%s.rs' % name), 'w').write(src)
        n += 1
    print('%d witness programs written to %s' % (n, OUT))


if __name__ == '__main__':
    main()
