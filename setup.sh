#!/bin/sh
# builds the jammlint driver (rustc_private, nightly, zero cargo dependencies) offline
set -e
cd "$(dirname "$0")/jammlint"
CARGO_NET_OFFLINE=true cargo +nightly build --release --offline
test -x target/release/jammlint
mkdir -p ../.work ../evidence
echo "jammlint built"
